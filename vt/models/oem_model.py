"""Reference model for C17 (optimal estimation matrices).  No typhon, no LAPACK in the deciding
path: Cholesky factorisation and triangular solves are explicit loops over rows in
numpy.longdouble (64 bit mantissa); float64 LAPACK is only used for norms / eigenvalues of
already-formed matrices (their own error, n*eps*norm, is part of the stated tolerances).
"""
import numpy as np

LD = np.longdouble
EPS = float(np.finfo(np.float64).eps)


def ld(a):
    return np.asarray(a, dtype=LD)


def chol(a):
    """Lower Cholesky factor of an SPD matrix, longdouble, row by row."""
    a = ld(a)
    n = a.shape[0]
    L = np.zeros((n, n), dtype=LD)
    for j in range(n):
        s = a[j, j] - (L[j, :j] * L[j, :j]).sum()
        if not s > 0:
            raise ValueError("matrix not positive definite in longdouble (pivot %d)" % j)
        L[j, j] = np.sqrt(s)
        if j + 1 < n:
            L[j + 1:, j] = (a[j + 1:, j] - L[j + 1:, :j] @ L[j, :j]) / L[j, j]
    return L


def solve_lower(L, b):
    b = ld(b)
    x = np.zeros_like(b)
    for i in range(L.shape[0]):
        x[i] = (b[i] - L[i, :i] @ x[:i]) / L[i, i]
    return x


def solve_upper(U, b):
    b = ld(b)
    x = np.zeros_like(b)
    for i in range(U.shape[0] - 1, -1, -1):
        x[i] = (b[i] - U[i, i + 1:] @ x[i + 1:]) / U[i, i]
    return x


def spd_solve(L, b):
    """Solve (L L^T) x = b."""
    return solve_upper(L.T, solve_lower(L, b))


def spd_inv(a):
    L = chol(a)
    x = spd_solve(L, np.eye(a.shape[0], dtype=LD))
    return (x + x.T) / LD(2)


def fro(a):
    a = ld(a)
    return float(np.sqrt((a * a).sum()))


def norm2(a):
    a = np.asarray(a, dtype=float)
    if a.size == 0:
        return 0.0
    return float(np.linalg.norm(np.atleast_2d(a), 2))


def cond_spd(a):
    w = np.linalg.eigvalsh(np.asarray(a, dtype=float))
    return float(w[-1] / w[0]), float(w[0]), float(w[-1])


class Reference:
    """All reference quantities of one (K, S_a, S_y) triple."""

    def __init__(self, K, S_a, S_y):
        K, S_a, S_y = ld(K), ld(S_a), ld(S_y)
        self.K, self.S_a, self.S_y = K, S_a, S_y
        m, n = K.shape
        self.n, self.m = n, m
        self.Sa_inv = spd_inv(S_a)
        self.Sy_inv = spd_inv(S_y)
        # n-form (the definition in the statement)
        self.M = K.T @ self.Sy_inv @ K + self.Sa_inv
        self.M = (self.M + self.M.T) / LD(2)
        self.S_n = spd_inv(self.M)
        self.G_n = self.S_n @ K.T @ self.Sy_inv
        # m-form (never used by the implementation)
        self.B = K @ S_a @ K.T + S_y
        self.B = (self.B + self.B.T) / LD(2)
        LB = chol(self.B)
        # G_m = S_a K^T B^-1  <=>  B G_m^T = K S_a
        self.G_m = spd_solve(LB, K @ S_a).T
        self.S_m = S_a - self.G_m @ K @ S_a
        self.A_gk = self.G_m @ K
        self.A_is = np.eye(n, dtype=LD) - self.S_n @ self.Sa_inv
        # condition numbers (float64 eigenvalues of SPD matrices)
        self.kappa_a, self.la_min, self.la_max = cond_spd(S_a)
        self.kappa_y, self.ly_min, self.ly_max = cond_spd(S_y)
        self.kappa_M, self.lM_min, self.lM_max = cond_spd(self.M)
        self.kappa_B, _, _ = cond_spd(self.B)
        self.nK = norm2(K)
        # kappa of the n-form chain, see C17 ASSUMPTIONS
        self.kappa_S = self.kappa_M * (self.kappa_y ** 2 + self.kappa_a + 1.0)
        self.nS = 1.0 / self.lM_min
        self.nSy_inv = 1.0 / self.ly_min
        self.nSa_inv = 1.0 / self.la_min
        self.scale_G = self.nS * self.nK * self.nSy_inv
        self.scale_A = self.scale_G * self.nK

    def oracle_gap(self):
        """Disagreement of the two longdouble forms, relative to the scales used for the
        verdicts; must be far below the float64 tolerances (else the case is inconclusive)."""
        gS = fro(self.S_n - self.S_m) / max(self.la_max, 1e-300)
        gG = fro(self.G_n - self.G_m) / max(self.scale_G, 1e-300) if self.nK > 0 else 0.0
        gA = fro(self.A_gk - self.A_is) / max(1.0, self.scale_A)
        return max(gS, gG, gA)

    def info_eigs(self):
        """Eigenvalues of A: those of the symmetric matrix L^-1 A L (S_a = L L^T)."""
        return sym_eigs_of_A(self.A_gk, self.S_a)


def sym_eigs_of_A(A, S_a):
    """A = S_a^(1/2)-similar to a symmetric PSD matrix.  Returns the eigenvalues of the
    symmetric part of L^-1 A L and the size of its skew part."""
    L = chol(S_a)
    At = solve_lower(L, ld(A) @ L)
    sym = (At + At.T) / LD(2)
    skew = fro(At - At.T) / 2
    w = np.linalg.eigvalsh(sym.astype(float))
    return w, skew, norm2(sym.astype(float))
