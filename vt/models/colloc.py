"""Brute-force collocation oracle (no typhon import) and point-set generators.

Distances: straight-line chord between points on a sphere of radius R = 6 378 100 m (the value
typhon documents as its Earth radius; asserted equal to typhon.constants.earth_radius by the
property module, not read from it), evaluated in numpy.longdouble.
"""
import numpy as np

R_KM = np.longdouble(6378.1)
LD = np.longdouble


def xyz(lat, lon):
    lat = np.deg2rad(np.asarray(lat, dtype=LD))
    lon = np.deg2rad(np.asarray(lon, dtype=LD))
    c = np.cos(lat)
    return np.stack([R_KM * c * np.cos(lon), R_KM * c * np.sin(lon), R_KM * np.sin(lat)], axis=-1)


def chord_matrix(lat1, lon1, lat2, lon2):
    a = xyz(lat1, lon1)
    b = xyz(lat2, lon2)
    out = np.empty((a.shape[0], b.shape[0]), dtype=LD)
    # row blocks keep the memory of a 3000 x 3000 case bounded
    step = max(1, 200000 // max(1, b.shape[0]))
    for i in range(0, a.shape[0], step):
        d = a[i:i + step, None, :] - b[None, :, :]
        out[i:i + step] = np.sqrt((d * d).sum(-1))
    return out


def band(r_km):
    """don't-care band around a distance threshold (km): 1e-9 relative + 1e-8 km absolute
    (float64 rounding of cartesian coordinates of magnitude 6.4e6 m is ~1e-9 m)."""
    return 1e-9 * float(r_km) + 1e-8


def brute(p, s, max_interval_ns, max_distance_km, start_ns=None, end_ns=None):
    """p, s: dicts with time (int64 ns), lat, lon (float64, NaN allowed), id (int).
    Returns (must, may, info): sets of (id_p, id_s) that must / may be reported, and a dict
    (id_p, id_s) -> (|dt| ns, chord km)."""
    tp, ts = p["time"].astype(np.int64), s["time"].astype(np.int64)
    okp = ~(np.isnan(p["lat"]) | np.isnan(p["lon"]))
    oks = ~(np.isnan(s["lat"]) | np.isnan(s["lon"]))
    if start_ns is not None:
        okp &= tp >= start_ns
        oks &= ts >= start_ns
    if end_ns is not None:
        okp &= tp <= end_ns
        oks &= ts <= end_ns
    ip, is_ = np.nonzero(okp)[0], np.nonzero(oks)[0]
    must, may, info = set(), set(), {}
    if ip.size == 0 or is_.size == 0:
        return must, may, info
    dt = np.abs(tp[ip][:, None] - ts[is_][None, :])
    tmask = dt < max_interval_ns if max_interval_ns is not None else np.ones(dt.shape, bool)
    if max_distance_km is not None:
        d = chord_matrix(p["lat"][ip], p["lon"][ip], s["lat"][is_], s["lon"][is_])
        b = band(max_distance_km)
        sure = d <= LD(max_distance_km) - LD(b)
        maybe = (d <= LD(max_distance_km) + LD(b)) & ~sure
    else:
        d = chord_matrix(p["lat"][ip], p["lon"][ip], s["lat"][is_], s["lon"][is_])
        sure = np.ones(dt.shape, bool)
        maybe = np.zeros(dt.shape, bool)
    for a, c in zip(*np.nonzero(sure & tmask)):
        key = (int(p["id"][ip[a]]), int(s["id"][is_[c]]))
        must.add(key)
        info[key] = (int(dt[a, c]), float(d[a, c]))
    for a, c in zip(*np.nonzero(maybe & tmask)):
        key = (int(p["id"][ip[a]]), int(s["id"][is_[c]]))
        may.add(key)
        info[key] = (int(dt[a, c]), float(d[a, c]))
    return must, may, info


def near_threshold(info, max_interval_ns, max_distance_km):
    """True if some candidate pair lies within 10 % of a threshold."""
    for dt, d in info.values():
        if max_interval_ns and abs(dt - max_interval_ns) <= 0.1 * max_interval_ns:
            return True
        if max_distance_km and abs(d - max_distance_km) <= 0.1 * max_distance_km:
            return True
    return False


# ---------------------------------------------------------------------------
# generators
# ---------------------------------------------------------------------------
SEC = 1_000_000_000
T0 = np.datetime64("2018-03-01T00:00:00", "ns").astype(np.int64)

DIST_FACTORS = [0.0, 0.3, 1 - 1e-3, 1 - 1e-6, 1 + 1e-6, 1 + 1e-3, 2.0, 10.0]


def offset_point(lat, lon, d_km, bearing, rng):
    """A point at chord distance d_km from (lat, lon) (float64 arithmetic; the oracle
    re-measures the realised distance)."""
    gamma = 2 * np.arcsin(min(1.0, d_km / (2 * 6378.1)))
    la1, lo1 = np.deg2rad(lat), np.deg2rad(lon)
    la2 = np.arcsin(np.sin(la1) * np.cos(gamma) + np.cos(la1) * np.sin(gamma) * np.cos(bearing))
    lo2 = lo1 + np.arctan2(np.sin(bearing) * np.sin(gamma) * np.cos(la1),
                           np.cos(gamma) - np.sin(la1) * np.sin(la2))
    lon2 = np.rad2deg(lo2)
    lon2 = (lon2 + 180.0) % 360.0 - 180.0
    return float(np.rad2deg(la2)), float(lon2)


def gen_case(g):
    """g: dict of generator parameters (JSON) -> (primary, secondary) point dicts."""
    rng = np.random.default_rng(g["seed"])
    cls = g["cls"]
    n1, n2 = g["n1"], g["n2"]
    r = g["r_km"]
    mi = g["mi_ns"] or 3600 * SEC
    tick = g.get("tick_ns", SEC)
    region = {"mid": (20.0, 30.0), "pole": (89.6, 10.0), "spole": (-89.7, -100.0),
              "dateline": (-10.0, 179.97), "equator": (0.0, 0.0)}[g.get("region", "mid")]
    spread_km = g.get("spread_km", 5 * r)
    span = g.get("span_ns", 6 * mi)

    def scatter(n):
        lat, lon = np.empty(n), np.empty(n)
        for i in range(n):
            lat[i], lon[i] = offset_point(region[0], region[1], rng.uniform(0, spread_km),
                                          rng.uniform(0, 2 * np.pi), rng)
        return lat, lon

    lat1, lon1 = scatter(n1)
    t1 = T0 + (rng.integers(0, max(1, span // tick), n1) * tick)
    split = g.get("split")
    if split == "dateline":
        # every primary strictly east, every secondary strictly west of the date line (or vice versa)
        lon1 = 180.0 - np.abs(rng.uniform(1e-4, 0.5 * spread_km / 111.0, n1))
    elif split == "pole":
        # both sets next to the pole, in far-apart longitude sectors
        lat1 = 90.0 - np.abs(rng.uniform(1e-3, spread_km / 111.0, n1))
        lon1 = rng.uniform(-30.0, 30.0, n1)
    w = g.get("grid_w")
    if w:
        t1 = np.repeat(t1[::w], w)[:n1]  # one time per scan line
    lat2, lon2 = scatter(n2)
    t2 = T0 + (rng.integers(0, max(1, span // tick), n2) * tick)
    if split == "dateline":
        lon2 = -180.0 + np.abs(rng.uniform(1e-4, 0.5 * spread_km / 111.0, n2))
        lat2 = lat1[rng.integers(0, n1, n2)] + rng.uniform(-0.2, 0.2, n2) * spread_km / 111.0
        if g["seed"] % 2:
            lon1, lon2 = -lon1, -lon2
    elif split == "pole":
        lat2 = 90.0 - np.abs(rng.uniform(1e-3, spread_km / 111.0, n2))
        lon2 = rng.uniform(150.0, 180.0, n2) * rng.choice([-1, 1], n2)
        if g["seed"] % 2:
            lat1, lat2 = -lat1, -lat2
    if cls in ("threshold", "dup", "first-first", "nan", "grid") and not split:
        # secondaries derived from primaries with chosen distance / time offsets
        for j in range(n2):
            i = int(rng.integers(0, n1))
            f = DIST_FACTORS[int(rng.integers(0, len(DIST_FACTORS)))]
            lat2[j], lon2[j] = offset_point(lat1[i], lon1[i], f * r, rng.uniform(0, 2 * np.pi), rng)
            gsel = int(rng.integers(0, 7))
            off = [0, mi // 2 // tick * tick, mi - tick, mi, mi + tick, 3 * mi, tick][gsel]
            t2[j] = t1[i] + int(rng.choice([-1, 1])) * off
    if cls == "dup":
        k = max(1, n1 // 3)
        lat1[:k], lon1[:k] = lat1[0], lon1[0]
        t1[: max(1, n1 // 2)] = t1[0]
        if n2 > 2:
            lat2[1], lon2[1], t2[1] = lat2[0], lon2[0], t2[0]
    if cls == "first-first":
        # only (first, first) collocates: everything else far away in space
        for j in range(1, n2):
            lat2[j], lon2[j] = offset_point(lat1[0], lon1[0], rng.uniform(20, 60) * r + 50,
                                            rng.uniform(0, 2 * np.pi), rng)
        for i in range(1, n1):
            lat1[i], lon1[i] = offset_point(lat1[0], lon1[0], rng.uniform(100, 160) * r + 500,
                                            rng.uniform(0, 2 * np.pi), rng)
        lat2[0], lon2[0] = offset_point(lat1[0], lon1[0], 0.3 * r, 1.0, rng)
        t1[0] = t1.min() - 10 * tick if g.get("first_earliest", True) else t1[0]
        t2[0] = t1[0] + tick
        t2[1:] = np.maximum(t2[1:], t2[0] + tick)
    if cls == "none":
        lat2, lon2 = np.empty(n2), np.empty(n2)
        for j in range(n2):
            lat2[j], lon2[j] = offset_point(region[0], region[1],
                                            spread_km + 3 * r + rng.uniform(1, 50) * r,
                                            rng.uniform(0, 2 * np.pi), rng)
    if cls == "gaps":
        # long temporal gaps: bins without data on either side
        blocks = rng.integers(0, 4, n1)
        t1 = T0 + blocks * 40 * mi + rng.integers(0, mi // tick, n1) * tick
        blocks = rng.integers(0, 4, n2)
        t2 = T0 + blocks * 40 * mi + mi // 3 // tick * tick + rng.integers(0, mi // tick, n2) * tick
    if cls == "nan":
        for arr in (lat1, lon1):
            arr[rng.random(n1) < 0.15] = np.nan
        for arr in (lat2, lon2):
            arr[rng.random(n2) < 0.15] = np.nan
    p = {"time": np.asarray(t1, dtype=np.int64), "lat": lat1, "lon": lon1,
         "id": np.arange(n1, dtype=np.int64) + 100000}
    s = {"time": np.asarray(t2, dtype=np.int64), "lat": lat2, "lon": lon2,
         "id": np.arange(n2, dtype=np.int64) + 500000}
    if g.get("shuffle_rows", True) and cls != "first-first":
        if not w:
            o = rng.permutation(n1)
            p = {k: v[o] for k, v in p.items()}
        o = rng.permutation(n2)
        s = {k: v[o] for k, v in s.items()}
    return p, s


def perturb(pts, metres, seed):
    """Same shape, every position moved by about `metres` (below numpy.allclose's default
    tolerance for small values, far above the distance don't-care band)."""
    rng = np.random.default_rng(seed)
    q = {k: v.copy() for k, v in pts.items()}
    for i in range(q["lat"].size):
        if not np.isnan(q["lat"][i]):
            q["lat"][i], q["lon"][i] = offset_point(q["lat"][i], q["lon"][i], metres / 1000.0,
                                                    rng.uniform(0, 2 * np.pi), rng)
    return q
