"""Reference formulas for C09 (and the thermodynamic parts of C14).  No typhon import.

Everything here is the *documented* formula written a second time:
  * Murphy & Koop (2005) saturation pressure over ice (eq. 7) and liquid water (eq. 10),
    evaluated in numpy.longdouble together with the sum of absolute values of the terms of
    the exponent (needed for the forward error bound of a double evaluation),
  * the IFS Cy45r1 eq. 12.13 mixed-phase blend,
  * the six humidity converters from their definitions (generic over the number type, so
    that they run on Fractions, longdouble and float alike),
  * the Bohren & Albrecht 6.111 moist-adiabatic lapse rate.

Coefficients are the doubles nearest to the published decimals, widened to longdouble: every
double implementation of the formula shares exactly these values, so the bounds below speak
about rounding of the *operations* only.
"""
from fractions import Fraction

import numpy as np

LD = np.longdouble
U = 2.0 ** -53                 # unit round-off of IEEE double
K_LIB = 4                      # assumed worst-case ulp error of numpy's exp/log/tanh (double)
T_TRIPLE = 273.16              # K
BLEND_WIDTH = 23.0             # K
MW_LITERAL = "18.01528e-3"     # kg/mol, decimal literals of typhon.constants
MD_LITERAL = "28.9645e-3"
LD_OK = np.finfo(LD).nmant >= 63


def gamma(k, u=U):
    """Higham's gamma_k = k u / (1 - k u): bound of the relative error of k roundings."""
    return k * u / (1.0 - k * u)


# ---------------------------------------------------------------------------------------
# Murphy-Koop
# ---------------------------------------------------------------------------------------
def ice_ld(T):
    """(e_ice [Pa], S = sum |terms of ln e|) in longdouble."""
    T = np.asarray(T, dtype=LD)
    t0 = LD(9.550426) + 0 * T
    t1 = LD(5723.265) / T
    t2 = LD(3.53068) * np.log(T)
    t3 = LD(0.00728332) * T
    E = t0 - t1 + t2 - t3
    S = np.abs(t0) + np.abs(t1) + np.abs(t2) + np.abs(t3)
    return np.exp(E), S


def liq_ld(T):
    """(e_liq [Pa], S) in longdouble."""
    T = np.asarray(T, dtype=LD)
    a0 = LD(54.842763) + 0 * T
    a1 = LD(6763.22) / T
    a2 = LD(4.21) * np.log(T)
    a3 = LD(0.000367) * T
    th = np.tanh(LD(0.0415) * (T - LD(218.8)))
    b0 = LD(53.878) + 0 * T
    b1 = LD(1331.22) / T
    b2 = LD(9.44523) * np.log(T)
    b3 = LD(0.014025) * T
    E = a0 - a1 - a2 + a3 + th * (b0 - b1 - b2 + b3)
    S = a0 + a1 + a2 + a3 + b0 + b1 + b2 + b3
    return np.exp(E), S


def ice_rel_bound(S):
    """Relative forward error bound of a double evaluation of the ice formula.

    exponent: each of the 4 terms carries <= (K_LIB + 1) roundings (library call, one
    operation), three additions each add one rounding of a partial sum <= S, so
    |dE| <= (K_LIB + 4) u S; exp() adds K_LIB ulp and the result one more rounding.
    """
    return gamma(K_LIB + 4) * np.asarray(S, dtype=float) + gamma(K_LIB + 1)


def liq_rel_bound(S):
    """Same for the liquid formula: 8 terms with <= K_LIB + 1 roundings, tanh argument two
    roundings and K_LIB ulp for tanh (|tanh| <= 1, x sech^2 x < 0.45), one product, seven
    partial sums, all measured against S = sum of the absolute terms."""
    return gamma(2 * K_LIB + 12) * np.asarray(S, dtype=float) + gamma(K_LIB + 1)


def dln_ice(T):
    T = np.asarray(T, dtype=LD)
    return LD(5723.265) / T ** 2 + LD(3.53068) / T - LD(0.00728332)


def dln_liq(T):
    T = np.asarray(T, dtype=LD)
    k = LD(0.0415)
    arg = k * (T - LD(218.8))
    th = np.tanh(arg)
    B = LD(53.878) - LD(1331.22) / T - LD(9.44523) * np.log(T) + LD(0.014025) * T
    dB = LD(1331.22) / T ** 2 - LD(9.44523) / T + LD(0.014025)
    return (LD(6763.22) / T ** 2 - LD(4.21) / T + LD(0.000367)
            + (1 - th ** 2) * k * B + th * dB)


def blend_weight(T):
    T = np.asarray(T, dtype=LD)
    return ((T - LD(T_TRIPLE) + LD(BLEND_WIDTH)) / LD(BLEND_WIDTH)) ** 2


def mixed_ld(T):
    """IFS mixed phase: (value, absolute error bound for a double evaluation, region)
    region: -1 ice branch, 0 blend, +1 liquid branch (by the exact comparison in longdouble
    of the double T against the *real* numbers T_t and T_t - 23)."""
    T = np.asarray(T, dtype=LD)
    ice, Si = ice_ld(T)
    liq, Sl = liq_ld(T)
    w = blend_weight(T)
    blend = ice + (liq - ice) * w
    lo = LD(T_TRIPLE) - LD(BLEND_WIDTH)
    region = np.where(T < lo, -1, np.where(T > LD(T_TRIPLE), 1, 0))
    val = np.where(region < 0, ice, np.where(region > 0, liq, blend))
    bi = ice_rel_bound(Si) * np.asarray(ice, dtype=float)
    bl = liq_rel_bound(Sl) * np.asarray(liq, dtype=float)
    # blend: errors of both pure values, weight (three operations on numbers <= 23, a
    # division, a square: < 6u absolute for w <= 1), product and sum
    bb = bi + bl + 12 * U * np.asarray(np.maximum(ice, liq), dtype=float)
    err = np.where(region < 0, bi, np.where(region > 0, bl, bb))
    return val, err, region


def _max_phase_gap():
    T = np.linspace(LD(240), LD(280), 4001)
    return float(np.max(np.abs(liq_ld(T)[0] - ice_ld(T)[0]))) * 1.01


_MAX_GAP = _max_phase_gap()     # sup |e_liq - e_ice| on the blend window (Pa), ~27 Pa


def mixed_lipschitz(T_lo, T_hi):
    """Upper bound of |d e_mixed / dT| on [T_lo, T_hi] within 240..280 K: both pure curves
    are convex and increasing (slope largest at T_hi), the blend weight s^2 adds at most
    sup|liq - ice| * 2 s / 23 with s <= 1."""
    ice, _ = ice_ld(T_hi)
    liq, _ = liq_ld(T_hi)
    slope = max(float(ice * dln_ice(T_hi)), float(liq * dln_liq(T_hi)))
    return slope + 2.0 * _MAX_GAP / BLEND_WIDTH


# ---------------------------------------------------------------------------------------
# converters (definitions; x = n_v/(n_v+n_d), w = m_v/m_d, q = m_v/(m_v+m_d))
# ---------------------------------------------------------------------------------------
CONVERTERS = {
    # name: (typhon function name, source kind, target kind)
    "x2w": ("vmr2mixing_ratio", "x", "w"),
    "w2x": ("mixing_ratio2vmr", "w", "x"),
    "w2q": ("mixing_ratio2specific_humidity", "w", "q"),
    "q2w": ("specific_humidity2mixing_ratio", "q", "w"),
    "x2q": ("vmr2specific_humidity", "x", "q"),
    "q2x": ("specific_humidity2vmr", "q", "x"),
}
ROUNDINGS = {"x2w": 4, "w2x": 3, "w2q": 2, "q2w": 2, "x2q": 5, "q2x": 5}


def convert(name, v, Mw, Md):
    """The definition, in a different algebraic form than typhon's where there is one."""
    one = v * 0 + 1
    if name == "x2w":
        return (v * Mw) / ((one - v) * Md)
    if name == "w2x":
        return (v * Md) / (v * Md + Mw)
    if name == "w2q":
        return v / (one + v)
    if name == "q2w":
        return v / (one - v)
    if name == "x2q":
        return (v * Mw) / ((one - v) * Md + v * Mw)
    if name == "q2x":
        return (v * Md) / ((one - v) * Mw + v * Md)
    raise KeyError(name)


INVERSES = [("x2w", "w2x"), ("w2x", "x2w"), ("w2q", "q2w"), ("q2w", "w2q"),
            ("x2q", "q2x"), ("q2x", "x2q")]
ROUTES = [(("x2w", "w2q"), "x2q"), (("x2q", "q2w"), "x2w"), (("w2x", "x2q"), "w2q"),
          (("w2q", "q2x"), "w2x"), (("q2w", "w2x"), "q2x"), (("q2x", "x2w"), "q2w")]
CYCLES = [("x2w", "w2q", "q2x"), ("w2q", "q2x", "x2w"), ("q2x", "x2w", "w2q")]


def molar_fractions():
    return Fraction(MW_LITERAL), Fraction(MD_LITERAL)


# ---------------------------------------------------------------------------------------
# lapse rate
# ---------------------------------------------------------------------------------------
def lapse_ld(p, T, es, g, cp, Lv, Rd, Rv, Mw, Md):
    """Bohren & Albrecht 6.111 in longdouble; returns (lapse, gamma_d, A, B, w_s)."""
    p = np.asarray(p, dtype=LD)
    T = np.asarray(T, dtype=LD)
    es = np.asarray(es, dtype=LD)
    x = es / p
    w = convert("x2w", x, LD(Mw), LD(Md))
    A = LD(Lv) * w / (LD(Rd) * T)
    B = LD(Lv) ** 2 * w / (LD(cp) * LD(Rv) * T ** 2)
    gd = LD(g) / LD(cp)
    return gd * (1 + A) / (1 + B), gd, A, B, w
