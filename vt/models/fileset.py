"""File-population model: layouts, populations, and the find / match / closest oracles.

Nothing here imports typhon except the drivers at the bottom that hand typhon's answers
to the oracles.  The registry of a population is the harness' own generation data:
(path, t0, t1, attrs) - never parsed back from a name.
"""
import datetime as dt
import os
import shutil

from vt.core import scratch_dir
from vt.models import template as T

D = dt.timedelta
US = D(microseconds=1)

# finest directory level -> longest admissible file (one period of that level)
PERIOD = {"year": D(days=365), "month": D(days=28), "day": D(days=1), "hour": D(hours=1),
          None: D(days=400)}

DIR_LAYOUTS = [
    ("flat", [], None),
    ("y", ["{year}"], "year"),
    ("y/m", ["{year}", "{month}"], "month"),
    ("y/m/d", ["{year}", "{month}", "{day}"], "day"),
    ("y/doy", ["{year}", "{doy}"], "day"),
    ("ym", ["{year}{month}"], "month"),
    ("ymd", ["{year}{month}{day}"], "day"),
    ("y/m/d/h", ["{year}", "{month}", "{day}", "{hour}"], "hour"),
    ("y2/m", ["{year2}", "{month}"], "month"),
    ("y-m-d", ["{year}-{month}-{day}"], "day"),
    ("pre_y/m", ["data_{year}", "m{month}x"], "month"),
    ("sat/y/m", ["{sat}", "{year}", "{month}"], "month"),
    ("y/sat/doy", ["{year}", "{sat}", "{doy}"], "day"),
    ("lit/y/m/d", ["archive", "{year}", "{month}", "{day}"], "day"),
    ("y/m.d", ["{year}", "{month}.{day}"], "day"),
]
# A literal directory level *between* placeholder levels (finding #14 of DESIGN section 6)
DIR_LAYOUTS.append(("y/lit/m", ["{year}", "fixed", "{month}"], "month"))
# a non-temporal level *below* a temporal one
DIR_LAYOUTS.append(("ymd/sat", ["{year}-{month}-{day}", "{sat}"], "day"))
DIR_LAYOUTS.append(("y/m/d/sat", ["{year}", "{month}", "{day}", "{sat}"], "day"))
# wildcard inside a directory level (the asterisk is typhon's documented wildcard)
DIR_LAYOUTS.append(("y/m*/d", ["{year}", "m{month}_*", "{day}"], "day"))

FILE_PARTS = {
    "full": "{year}{month}{day}_{hour}{minute}{second}-{end_year}{end_month}{end_day}T"
            "{end_hour}{end_minute}{end_second}",
    "fulldoy": "{year}{doy}{hour}{minute}{second}_{end_year}{end_doy}{end_hour}{end_minute}"
               "{end_second}",
    "hms": "{year}{month}{day}_{hour}{minute}{second}-{end_hour}{end_minute}{end_second}",
    "fullms": "{year}{month}{day}_{hour}{minute}{second}{millisecond}-{end_year}{end_month}{end_day}T"
              "{end_hour}{end_minute}{end_second}{end_millisecond}",
    "cov": "{year}-{month}-{day}T{hour}{minute}{second}",
    "disc": "{year}{doy}.{hour}{minute}{second}",
}
SATS = ["n18", "xn18", "metop", "zz-n18-b"]


class Layout:
    def __init__(self, dirs_name, dirs, finest, end_style, with_sat, wildcard, suffix=".dat",
                 coverage=None):
        self.dirs_name = dirs_name
        self.dirs = list(dirs)
        self.finest = finest
        self.end_style = end_style
        self.wildcard = wildcard
        self.suffix = suffix
        self.coverage = coverage  # timedelta for end_style == "cov"
        fname = FILE_PARTS[end_style]
        self.sat_in_dirs = any("{sat}" in d for d in dirs)
        self.with_sat = with_sat or self.sat_in_dirs
        if self.with_sat and not self.sat_in_dirs:
            fname = "{sat}_" + fname
        elif self.with_sat and with_sat:
            fname = fname + "_{sat}"  # repeated placeholder: directory and file part
        if wildcard:
            fname = fname + "*"
        self.fname = fname + suffix
        self.template = "/".join(self.dirs + [self.fname])

    def describe(self):
        return {"dirs": self.dirs_name, "end": self.end_style, "sat": self.with_sat,
                "wildcard": self.wildcard, "template": self.template,
                "coverage_s": None if self.coverage is None else self.coverage.total_seconds()}

    def max_duration(self):
        lim = PERIOD[self.finest]
        if self.end_style == "hms":
            lim = min(lim, D(days=1) - D(seconds=1))
        return lim

    def path_of(self, base, f, junk=""):
        fill = {"sat": f["sat"]} if self.with_sat else {}
        name = T.render(self.template, f["t0"], f["t1"], fill)
        if self.wildcard:
            name = name[:-len(self.suffix) - 1] + junk + self.suffix
        if "*" in name:
            # wildcard in a directory level: any text; two spellings per month on purpose
            name = name.replace("*", ["a", "bb"][f["t0"].day % 2])
        return base.rstrip("/") + "/" + name


def random_layout(rng, end_style=None, dirs=None):
    if dirs is None:
        dirs = rng.choice(DIR_LAYOUTS)
    end_style = end_style or rng.choice(["full", "full", "fulldoy", "hms", "cov", "disc", "fullms"])
    cov = None
    if end_style == "cov":
        lim = PERIOD[dirs[2]]
        cov = rng.choice([D(seconds=1), D(minutes=10), D(hours=1), D(hours=6), D(days=1),
                          D(days=28)])
        cov = min(cov, lim)
    return Layout(dirs[0], dirs[1], dirs[2], end_style,
                  with_sat=rng.random() < 0.4, wildcard=rng.random() < 0.2, coverage=cov)


BOUNDARIES = [
    dt.datetime(2016, 2, 28), dt.datetime(2016, 2, 29), dt.datetime(2016, 3, 1),
    dt.datetime(2017, 2, 28), dt.datetime(2017, 3, 1), dt.datetime(2016, 12, 31),
    dt.datetime(2017, 1, 1), dt.datetime(2017, 12, 31), dt.datetime(2018, 1, 1),
    dt.datetime(2017, 4, 30), dt.datetime(2017, 5, 1), dt.datetime(2017, 7, 31),
    dt.datetime(2017, 8, 1), dt.datetime(2016, 12, 30), dt.datetime(2017, 10, 29),
]


def random_population(rng, layouts, n=None, sats=None):
    """Files (t0, t1, sat) admissible for *all* given layouts, aimed at boundaries."""
    lim = min(l.max_duration() for l in layouts)
    styles = {l.end_style for l in layouts}
    cov = None
    if "cov" in styles:
        cov = [l.coverage for l in layouts if l.end_style == "cov"][0]
    n = rng.choice([0, 1, 2, 5, 12, 25, 40]) if n is None else n
    anchor = rng.choice(BOUNDARIES)
    spread = rng.choice([D(hours=3), D(days=2), D(days=40), D(days=400)])
    sats = sats or SATS
    files, seen = [], set()
    lim_s = int(lim.total_seconds())
    tries = 0
    while len(files) < n and tries < n * 20:
        tries += 1
        c = rng.randrange(6)
        if c == 0:  # ends exactly on / just around a boundary
            b = rng.choice(BOUNDARIES) if rng.random() < 0.3 else anchor
            t1 = b + D(seconds=rng.choice([-1, 0, 0, 1, 3600]))
            t0 = t1 - D(seconds=rng.randint(0, lim_s))
        elif c == 1:  # starts shortly before a boundary and crosses it
            t0 = anchor - D(seconds=rng.randint(1, max(1, min(lim_s, 7200))))
            t1 = t0 + D(seconds=rng.randint(0, lim_s))
        elif c == 2 and files:  # duplicate start (other sat / other end) or adjacent file
            g = rng.choice(files)
            if rng.random() < 0.5:
                t0 = g["t0"]
                t1 = t0 + D(seconds=rng.randint(0, lim_s))
            else:
                t0 = g["t1"] + D(seconds=rng.choice([0, 0, 1, 60]))
                t1 = t0 + D(seconds=rng.randint(0, lim_s))
        elif c == 3:  # zero length
            t0 = anchor + D(seconds=rng.randint(-int(spread.total_seconds()),
                                                int(spread.total_seconds())))
            t1 = t0
        else:
            t0 = anchor + D(seconds=rng.randint(-int(spread.total_seconds()),
                                                int(spread.total_seconds())))
            t1 = t0 + D(seconds=rng.randint(0, lim_s))
        if "fullms" in styles:
            # millisecond resolution: several files inside one second, sub-second coverages
            t0 = t0 + D(milliseconds=rng.choice([0, 1, 250, 500, 999]))
            if files and rng.random() < 0.4:
                g = rng.choice(files)
                t0 = g["t0"].replace(microsecond=0) + D(milliseconds=rng.choice([0, 100, 250, 600, 999]))
            t1 = t0 + rng.choice([D(0), D(milliseconds=1), D(milliseconds=300), D(milliseconds=999),
                                  t1 - t0 if t1 >= t0 else D(0)])
            if t1 - t0 > lim:
                t1 = t0 + lim
        if rng.random() < 0.3:  # longest admissible
            t1 = t0 + lim
        if "disc" in styles:
            t1 = t0
        if cov is not None:
            t1 = t0 + cov
        if not (dt.datetime(1970, 1, 2) < t0 and t1 < dt.datetime(2063, 1, 1)):
            continue
        sat = rng.choice(sats)
        key = (t0, t1, sat)
        # names must be unique under every layout: (t0, t1, sat) with sat possibly unused
        key2 = (t0, t1)
        if key in seen or (not all(l.with_sat for l in layouts) and key2 in seen):
            continue
        if any(l.end_style in ("cov", "disc") for l in layouts) and \
                any(g["t0"] == t0 and (g["sat"] == sat or not all(l.with_sat for l in layouts))
                    for g in files):
            continue
        seen.add(key)
        seen.add(key2)
        files.append({"t0": t0, "t1": t1, "sat": sat, "id": len(files)})
    return files


def materialise(base, layout, files, rng=None, content=None):
    """Create the tree on disk; returns registry path -> file dict."""
    reg = {}
    for f in files:
        junk = ""
        if layout.wildcard and rng is not None:
            junk = rng.choice(["", "_v", "_vB", "x"])
        p = layout.path_of(base, f, junk)
        os.makedirs(os.path.dirname(p), exist_ok=True)
        with open(p, "wb") as fh:
            fh.write(content(f) if content else (b"%d" % f["id"]))
        reg[p] = f
    LAST["strays"] = 0
    if files and len(files) % 3 == 0 and layout.dirs:
        LAST["strays"] = add_stray_dirs(base, layout, files)
    return reg


LAST = {"strays": 0}


STRAY_FIELDS = [{"day": "00"}, {"month": "02", "day": "30"}, {"month": "13"}, {"month": "00"},
                {"doy": "367"}, {"doy": "000"}, {"hour": "24"}, {"day": "32"}]


def add_stray_dirs(base, layout, files):
    """Population class: directories whose names have the shape of the dated levels but are no calendar
    date (2018-01-00 of a monthly product, 02/30 left by a broken job, doy 367, hour 24). They hold no
    file of the fileset - every second one holds a foreign file, the others are empty -, so no answer
    of the model changes."""
    made = 0
    for k, f in enumerate(files[:4]):
        t0 = f["t0"]
        fields = {"year": "%04d" % t0.year, "year2": "%02d" % (t0.year % 100), "month": "%02d" % t0.month,
                  "day": "%02d" % t0.day, "doy": "%03d" % t0.timetuple().tm_yday,
                  "hour": "%02d" % t0.hour, "sat": f["sat"]}
        for j, change in enumerate(STRAY_FIELDS):
            if not any("{%s}" % name in d for name in change for d in layout.dirs):
                continue
            parts = [d.format(**dict(fields, **change)).replace("*", "a") for d in layout.dirs]
            path = base.rstrip("/") + "/" + "/".join(parts)
            if os.path.exists(path):
                continue
            os.makedirs(path)
            made += 1
            if (k + j) % 2:
                with open(path + "/monthly_mean.nc", "wb") as fh:
                    fh.write(b"foreign")
    return made


def make_fileset(base, layout, **kw):
    from typhon.files import FileSet
    args = {}
    if layout.end_style == "cov":
        args["time_coverage"] = layout.coverage
    args.update(kw)
    return FileSet(path=base.rstrip("/") + "/" + layout.template, **args)


# ---------------------------------------------------------------------------
# oracles
# ---------------------------------------------------------------------------
def passes_filters(f, layout, filters):
    if not filters:
        return True
    for k, v in filters.items():
        vals = [v] if isinstance(v, str) else list(v)
        if k.startswith("!"):
            if layout.with_sat and k[1:] == "sat" and f["sat"] in vals:
                return False
        else:
            if layout.with_sat and k == "sat" and f["sat"] not in vals:
                return False
    return True


def visible(reg, layout, start, end, filters=None, excl_names=(), excl_periods=()):
    """Model of find(): registry entries with t0 < end and t1 >= start, not excluded,
    passing the filters; sorted by (t0, t1)."""
    out = []
    for p, f in reg.items():
        if not (f["t0"] < end and f["t1"] >= start):
            continue
        if p in excl_names:
            continue
        if any(f["t0"] <= p1 and f["t1"] >= p0 for p0, p1 in excl_periods):
            continue
        if not passes_filters(f, layout, filters):
            continue
        out.append(p)
    out.sort(key=lambda p: (reg[p]["t0"], reg[p]["t1"], p))
    return out


def order_ok(paths, reg):
    keys = [(reg[p]["t0"], reg[p]["t1"]) for p in paths]
    return keys == sorted(keys)


def model_match(reg1, lay1, reg2, lay2, start, end, mi):
    """Model of match(): primaries found in the widened period, partners = secondaries found
    in the widened period whose coverage widened by mi intersects the primary's."""
    mi = mi or D(0)
    s = start - mi if start is not None else dt.datetime.min
    e = end + mi if end is not None else dt.datetime.max
    prim = visible(reg1, lay1, s, e)
    sec = visible(reg2, lay2, s, e)
    res = []
    for p in prim:
        a = reg1[p]
        partners = [q for q in sec
                    if reg2[q]["t0"] - mi <= a["t1"] and reg2[q]["t1"] + mi >= a["t0"]]
        if partners:
            res.append((p, partners))
    return res


def neighbourhood(reg, layout, t, filters=None, excl_names=(), excl_periods=()):
    r = None if layout.finest is None else \
        {"year": D(days=366), "month": D(days=31), "day": D(days=1), "hour": D(hours=1)}[layout.finest]
    if r is None:
        return visible(reg, layout, dt.datetime.min, dt.datetime.max, filters, excl_names,
                       excl_periods)
    return visible(reg, layout, t - r, t + r, filters, excl_names, excl_periods)


# ---------------------------------------------------------------------------
# match() driver (property C03)
# ---------------------------------------------------------------------------
def _ser_files(files):
    return [[f["t0"].isoformat(), f["t1"].isoformat(), f["sat"]] for f in files]


def _deser_files(rows):
    return [{"t0": dt.datetime.fromisoformat(a), "t1": dt.datetime.fromisoformat(b), "sat": c,
             "id": i} for i, (a, b, c) in enumerate(rows)]


def gen_match_case(rng):
    lay1 = random_layout(rng, end_style=rng.choice(["full", "full", "hms", "cov", "fulldoy"]))
    lay2 = random_layout(rng, end_style=rng.choice(["full", "full", "hms", "cov", "disc"]))
    lay1.wildcard = lay2.wildcard = False
    lay1 = Layout(lay1.dirs_name, lay1.dirs, lay1.finest, lay1.end_style, lay1.with_sat and
                  not lay1.sat_in_dirs, False, coverage=lay1.coverage)
    lay2 = Layout(lay2.dirs_name, lay2.dirs, lay2.finest, lay2.end_style, lay2.with_sat and
                  not lay2.sat_in_dirs, False, coverage=lay2.coverage)
    return lay1, lay2


def layout_to_json(l):
    return {"dirs_name": l.dirs_name, "dirs": l.dirs, "finest": l.finest,
            "end_style": l.end_style, "with_sat": l.with_sat and not l.sat_in_dirs,
            "wildcard": l.wildcard,
            "coverage_s": None if l.coverage is None else l.coverage.total_seconds()}


def layout_from_json(j):
    return Layout(j["dirs_name"], j["dirs"], j["finest"], j["end_style"], j["with_sat"],
                  j["wildcard"],
                  coverage=None if j["coverage_s"] is None else D(seconds=j["coverage_s"]))


def match_case(rng, rec, spec, i):
    lay1, lay2 = gen_match_case(rng)
    n1 = rng.choice([1, 2, 4, 8, 15])
    n2 = rng.choice([1, 2, 4, 8, 15, 30])
    files1 = random_population(rng, [lay1], n1)
    if not files1:
        return
    # second population around the same anchor: re-seed the anchor through files1
    files2 = random_population(rng, [lay2], n2)
    if files2 and rng.random() < 0.8:
        shift = files1[0]["t0"] - files2[0]["t0"]
        shift = D(seconds=int(shift.total_seconds()) + rng.randint(-7200, 7200))
        if lay2.finest in ("year", "month", None) or True:
            files2 = [dict(f, t0=f["t0"] + shift, t1=f["t1"] + shift) for f in files2]
    case = {"kind": "match", "lay1": layout_to_json(lay1), "lay2": layout_to_json(lay2),
            "files1": _ser_files(files1), "files2": _ser_files(files2), "queries": []}
    pts = [f["t0"] for f in files1 + files2] + [f["t1"] for f in files1 + files2]
    for _ in range(rng.choice([2, 4])):
        c = rng.randrange(5)
        if c == 0:
            start = end = None
        else:
            a = rng.choice(pts) + D(seconds=rng.choice([0, 0, -1, 1, -3600, 86400]))
            b = rng.choice(pts) + D(seconds=rng.choice([0, 0, -1, 1, 3600, 86400]))
            start, end = min(a, b), max(a, b)
            if start == end:
                end = start + D(seconds=1)
        mi = rng.choice([None, 0, 1, 60, 3600, 86400, "30 min", "2h"])
        if start is None and mi is not None:
            mi = None
        case["queries"].append([None if start is None else start.isoformat(),
                                None if end is None else end.isoformat(), mi])
    if i < 1:
        rec.sample(case)
    replay_match(case, rec)


def _mi_to_td(mi):
    if mi is None:
        return None
    if isinstance(mi, (int, float)):
        return D(seconds=int(mi))
    return {"30 min": D(minutes=30), "2h": D(hours=2)}[mi]


def replay_match(case, rec):
    lay1 = layout_from_json(case["lay1"])
    lay2 = layout_from_json(case["lay2"])
    files1 = _deser_files(case["files1"])
    files2 = _deser_files(case["files2"])
    base = scratch_dir("c03")
    try:
        reg1 = materialise(base + "/A", lay1, files1)
        reg2 = materialise(base + "/B", lay2, files2)
        if not reg2 or not reg1:
            return
        fs1 = make_fileset(base + "/A", lay1, name="A")
        fs2 = make_fileset(base + "/B", lay2, name="B")
        for q in case["queries"]:
            start = None if q[0] is None else dt.datetime.fromisoformat(q[0])
            end = None if q[1] is None else dt.datetime.fromisoformat(q[1])
            mi = q[2]
            want = model_match(reg1, lay1, reg2, lay2, start, end, _mi_to_td(mi))
            sub = dict(case, queries=[q])
            rec.ev()
            rec.count("match.calls")
            try:
                got = [(p.path, [s.path for s in secs])
                       for p, secs in fs1.match(fs2, start, end, max_interval=mi)]
            except Exception as exc:
                name = type(exc).__name__
                if name == "NoFilesError":
                    got = []
                else:
                    import traceback
                    rec.violation("match-exception", sub,
                                  {"exception": repr(exc), "trace": traceback.format_exc()[-1200:]})
                    continue
            # order of primaries / partners: time order, ties free
            gp = [p for p, _ in got]
            ok = ([p for p, _ in want] == gp or
                  (sorted(gp) == sorted(p for p, _ in want) and order_ok(gp, reg1)))
            if ok:
                wd = dict(want)
                for p, secs in got:
                    if sorted(secs) != sorted(wd[p]) or not order_ok(secs, reg2):
                        ok = False
            if not ok:
                rec.violation("match-wrong-answer", sub, {
                    "got": [(os.path.basename(p), [os.path.basename(s) for s in ss]) for p, ss in got][:6],
                    "want": [(os.path.basename(p), [os.path.basename(s) for s in ss]) for p, ss in want][:6]})
            total_pairs = sum(len(s) for _, s in want)
            if want and total_pairs < len(reg1) * len(reg2) and len(reg2) >= 2:
                rec.count("match.nontrivial")
                rec.nontriv(["match", lay1.dirs_name, lay2.dirs_name, lay1.end_style,
                             lay2.end_style, mi is not None, start is None],
                            [case["files1"], case["files2"], q])
    finally:
        shutil.rmtree(base, ignore_errors=True)
