"""Orchestrator:  python -m vt.run <ID> --tier quick|thorough [--replay PATH]

Shards run as plain subprocesses (never multiprocessing.Pool), each under a
wall-clock watchdog whose firing is *inconclusive*.  Verdict folding:
  exit 1 + "VIOLATION property=<ID> replay=<path>"   a violation not listed as an open finding
  exit 0 (+ "KNOWN-FINDING: ..." lines)               held on everything observed
  exit 2 + "INCONCLUSIVE property=<ID> reason=..."    a deciding monitor saw too little
"""
import argparse
import importlib
import json
import os
import shutil
import subprocess
import sys
import tempfile
import time

HOME = os.environ.get("VT_HOME") or os.path.dirname(os.path.dirname(os.path.abspath(__file__)))


def load_known(prop):
    path = os.path.join(HOME, "known_findings.json")
    if not os.path.exists(path):
        return []
    with open(path) as fh:
        data = json.load(fh)
    return [e for e in data.get("findings", []) if e.get("property") == prop]


def run_shards(prop, specs, timeout, jobs):
    work = tempfile.mkdtemp(prefix="vt-run-")
    results = [None] * len(specs)
    pending = list(enumerate(specs))
    running = []
    env = dict(os.environ)
    # every scratch directory of the shards lives below the run directory, which is removed at the end
    # (also when a shard was killed by the watchdog or crashed before its own clean-up)
    scratch = os.path.join(work, "scratch")
    os.mkdir(scratch)
    env["VT_SCRATCH"] = scratch
    try:
        while pending or running:
            while pending and len(running) < jobs:
                i, spec = pending.pop(0)
                sp = os.path.join(work, "spec%d.json" % i)
                op = os.path.join(work, "out%d.json" % i)
                with open(sp, "w") as fh:
                    json.dump(spec, fh)
                log = open(os.path.join(work, "log%d.txt" % i), "w")
                p = subprocess.Popen(
                    [sys.executable, "-X", "faulthandler", "-m", "vt.worker", prop, sp, op],
                    stdout=log, stderr=subprocess.STDOUT, env=env, cwd=HOME,
                    start_new_session=True)
                running.append((i, p, op, time.time(), log))
            time.sleep(0.05)
            still = []
            for i, p, op, t0, log in running:
                rc = p.poll()
                if rc is None:
                    if time.time() - t0 > timeout:
                        try:
                            os.killpg(p.pid, 9)
                        except Exception:
                            p.kill()
                        p.wait()
                        log.close()
                        results[i] = {"dead": "watchdog after %ds" % timeout, "spec": specs[i]}
                    else:
                        still.append((i, p, op, t0, log))
                    continue
                log.close()
                if os.path.exists(op):
                    with open(op) as fh:
                        results[i] = json.load(fh)
                else:
                    with open(log.name) as fh:
                        tail = fh.read()[-2000:]
                    results[i] = {"dead": "worker exit %s without result: %s" % (rc, tail),
                                  "spec": specs[i]}
            running = still
    finally:
        shutil.rmtree(work, ignore_errors=True)
    return results


def main(argv=None):
    ap = argparse.ArgumentParser()
    ap.add_argument("prop")
    ap.add_argument("--tier", default=os.environ.get("VERIF_TIER", "quick"),
                    choices=["quick", "thorough"])
    ap.add_argument("--replay")
    ap.add_argument("--jobs", type=int, default=int(os.environ.get("VT_JOBS", "16")))
    ap.add_argument("--scale", type=float, default=float(os.environ.get("VT_SCALE", "1")))
    args = ap.parse_args(argv)
    prop = args.prop.upper()
    seed = int(os.environ.get("VERIF_SEED", "0") or 0)
    t0 = time.time()
    mod = importlib.import_module("vt.props." + prop.lower())

    if args.replay:
        with open(args.replay) as fh:
            rp = json.load(fh)
        specs = [{"kind": "replay", "case": rp["case"], "seed": rp.get("seed", seed)}]
    else:
        specs = mod.shards(args.tier, seed)
        if args.scale != 1:
            for s in specs:
                if "n" in s:
                    s["n"] = max(1, int(s["n"] * args.scale))
    timeout = getattr(mod, "SHARD_TIMEOUT", {"quick": 600, "thorough": 7200})[args.tier]
    results = run_shards(prop, specs, timeout, args.jobs)

    known = load_known(prop)
    open_keys = {e["key"]: e for e in known if e.get("status") == "open"}

    evaluations = 0
    nontrivial = set()
    samples = []
    counters = {}
    sets = {}
    inconclusive = []
    notes = []
    viols = []
    n_viol = 0
    for r in results:
        if r is None or "dead" in r:
            inconclusive.append("shard %s: %s" % (json.dumps((r or {}).get("spec"))[:200],
                                                  (r or {}).get("dead")))
            continue
        evaluations += r["evaluations"]
        nontrivial.update(r["nontrivial"])
        for s in r["samples"]:
            if len(samples) < 6:
                samples.append(s)
        for k, v in r["counters"].items():
            if k.startswith("max:"):
                counters[k] = max(counters.get(k, v), v)
            else:
                counters[k] = counters.get(k, 0) + v
        for k, v in r["sets"].items():
            sets.setdefault(k, set()).update(v)
        inconclusive.extend(r["inconclusive"])
        for n in r["notes"]:
            if n not in notes:
                notes.append(n)
        for v in r["violations"]:
            v = dict(v)
            v["seed"] = r["spec"].get("seed", seed)
            viols.append(v)
        n_viol += r["n_violations"]

    # -- fold violations ---------------------------------------------------
    fresh = [v for v in viols if v["key"] not in open_keys]
    known_hit = {}
    for v in viols:
        if v["key"] in open_keys:
            known_hit.setdefault(v["key"], v)
    fresh_count = sum(c for k, c in counters.items()
                      if k.startswith("violations:") and k[len("violations:"):] not in open_keys)

    minimum = getattr(mod, "MIN_NONTRIVIAL", {"quick": 2, "thorough": 2})[args.tier]
    if args.scale < 1:
        minimum = max(2, int(minimum * args.scale))
    required = getattr(mod, "REQUIRED_COUNTERS", {})
    if not args.replay:
        if len(nontrivial) < minimum:
            inconclusive.append("only %d distinct non-trivial cases (minimum %d)"
                                % (len(nontrivial), minimum))
        for name, least in required.items():
            if counters.get(name, 0) < least:
                inconclusive.append("monitor counter %s=%s below %s: deciding monitor not reached"
                                    % (name, counters.get(name, 0), least))

    lines = []
    exit_code = 0
    replay_paths = []
    if fresh:
        rdir = os.path.join(os.environ.get("VT_REPLAY_DIR") or os.path.join(HOME, "replays"), prop)
        os.makedirs(rdir, exist_ok=True)
        seen = set()
        for v in fresh:
            from vt.core import jhash
            h = jhash([v["key"], v["case"]])
            if h in seen:
                continue
            seen.add(h)
            path = os.path.join(rdir, "%s-%s.json" % (v["key"], h))
            with open(path, "w") as fh:
                json.dump({"property": prop, "key": v["key"], "case": v["case"],
                           "detail": v["detail"], "seed": v["seed"], "tier": args.tier},
                          fh, indent=1)
            rel = os.path.relpath(path, HOME)
            replay_paths.append(rel)
            lines.append("VIOLATION property=%s replay=%s" % (prop, rel))
            lines.append("  mechanism=%s detail=%s" % (v["key"], json.dumps(v["detail"])[:600]))
        exit_code = 1
    for key, e in open_keys.items():
        hit = known_hit.get(key)
        lines.append("KNOWN-FINDING: property=%s %s [%s; %s]" % (
            prop, e.get("what", key), key,
            "witness reproduced %d time(s) this run" % counters.get("violations:" + key, 0)
            if hit else "not reached by this run"))
    if exit_code == 0 and inconclusive:
        exit_code = 2
        lines.append("INCONCLUSIVE property=%s reason=%s" % (prop, inconclusive[0][:500]))

    wall = round(time.time() - t0, 2)
    if not args.replay:
        ev = {
            "property_id": prop,
            "tier": args.tier,
            "seed": seed,
            "level": getattr(mod, "LEVEL", "exploration"),
            "coverage": {
                "evaluations": evaluations,
                "distinct_nontrivial": len(nontrivial),
                "rule": getattr(mod, "RULE", ""),
                "samples": samples,
                "exhaustive": False,
                "observed": {k: counters[k] for k in sorted(counters)},
                "distinct_observed": {k: len(v) for k, v in sorted(sets.items())},
                "signature_examples": sorted(sets.get("signatures", []))[:12],
                "shards": len(specs),
                "inconclusive": inconclusive[:10],
                "known_findings_listed": sorted(open_keys),
                "notes": notes,
                "verdict": {0: "held on everything observed", 1: "violated",
                            2: "inconclusive"}[exit_code],
            },
            "assumptions": getattr(mod, "ASSUMPTIONS", []),
            "wall_s": wall,
            "violations": fresh_count if fresh_count else len(fresh),
        }
        extra = getattr(mod, "evidence_extra", None)
        if extra:
            ev["coverage"].update(extra(counters, sets))
        edir = os.environ.get("VT_EVIDENCE_DIR") or os.path.join(HOME, "evidence")
        os.makedirs(edir, exist_ok=True)
        tmp = os.path.join(edir, prop + ".json.tmp")
        with open(tmp, "w") as fh:
            json.dump(ev, fh, indent=1)
        os.replace(tmp, os.path.join(edir, prop + ".json"))

    print("%s tier=%s seed=%d shards=%d evaluations=%d distinct_nontrivial=%d violations=%d wall=%.1fs"
          % (prop, args.tier, seed, len(specs), evaluations, len(nontrivial), n_viol, wall))
    shown = [k for k in sorted(counters) if not k.startswith("violations:")][:40]
    print("  observed: " + ", ".join("%s=%s" % (k, counters[k]) for k in shown))
    for ln in lines:
        print(ln)
    for msg in inconclusive[:5]:
        print("  inconclusive: " + msg[:1500])
    sys.stdout.flush()
    return exit_code


if __name__ == "__main__":
    sys.exit(main())
